"""Property -> rules registry and the driver."""
import os
import sys
import json

from .model import load, AnalysisError
from .report import Ctx, VIOLATION
from .rules import closures as RC
from .rules import potentials as RP
from .rules import generic as RG
from .rules import domain as RD
from .rules import matrixarray as RM
from .rules import tables as RT
from .rules import tables_sem as RTS

from .rules import density as RDn
from .rules import density_sem as RDS
from .rules import system_sem as RSS
from .rules import omega_tab as RO
from .rules import calculate as RCa
from .rules import prism as RP2
from .rules import prism_sem as RPS
from .rules import omega as ROm
from .rules import units as RU
from .rules import invariance as RI

PROPS = {}


def _fb(sem, syn):
    """deciding rule = abstract execution of the real class (rules/tables_sem.py); the shape-based rule of rules/tables.py
    decides only when the interpreter cannot execute the (rewritten) method"""
    def rule(ctx):
        ctx.run_with_fallback(ctx.current_rule, sem, syn)
    rule.__name__ = sem.__name__
    return rule


R14_SETITEM = _fb(RTS.rule_setitem, RT.rule_pairtable_setitem)
R14_GETITEM = _fb(RTS.rule_getitem, RT.rule_pairtable_getitem)
R14_ITERPAIRS = _fb(RTS.rule_iterpairs, RT.rule_iterpairs)
R14_SETUNSET = _fb(RTS.rule_setunset_check, RT.rule_setunset_check)
R15_DENSITY = _fb(RDS.rule_density_histories, RDn.rule_density)
R15_DIAMETER = _fb(RDS.rule_diameter_histories, RDn.rule_diameter)
R15_CHECKS = _fb(RDS.rule_checks, RDn.rule_checks)
R14_APPLY = _fb(RTS.rule_apply, RT.rule_apply)
R14_VALUETABLE = _fb(RTS.rule_valuetable, RT.rule_valuetable)


def prop(pid, rules, explanation, not_decided, assumptions=(), trusted=('A1', 'A2', 'A4', 'A5')):
    PROPS[pid] = {'rules': rules, 'explanation': explanation, 'not_decided': not_decided,
                  'assumptions': list(assumptions), 'trusted': trusted}


prop('C09',
     [('R00.dyn', RG.rule_no_dynamic), ('R09.d', RC.rule_definition), ('R03.a', RC.rule_core), ('R03.i', RC.rule_core_infinite),
      ('R03.t', RC.rule_flag_truthiness), ('R09.n', RC.rule_cancellation), ('R03.b', RC.rule_mask_sites), ('R09.w', RC.rule_weak_coupling), ('R09.e', RC.rule_elementwise),
      ('R09.p', RC.rule_purity), ('R09.h', RC.rule_history), ('R09.f', RC.rule_flag_reassigned), ('R09.a', RC.rule_aliases)],
     'Static analysis of pyPRISM/closure: for every AtomicClosure subclass and both values of apply_hard_core the '
     'return term of calculate(r,gamma) is extracted by abstract interpretation over canonical terms (exact '
     'rational-function normal form with exp/sqrt atoms, piecewise on the three orderings of r and sigma) and '
     'compared with the published relation (spec/closures.py); the core branch, the weak-coupling expansion '
     '(symbolic derivative at the origin), pointwise structure, input purity (heap cells with identity: no in-place '
     'write to r, gamma, potential; result not an alias) and the alias classes are decided from the source; every data '
     'region of a closure that branches on gamma/u/r (np.minimum, np.clip, r>0) is compared with the reference; two-call '
     'histories (another potential, sigma and gamma; a result handed back as gamma) must reproduce a fresh closure and '
     'leave earlier results untouched (R09.h).',
     'floating-point overflow for huge gamma; that numpy evaluates the expression as written (trusted base A2).',
     ['closure.potential holds u/kT and closure.sigma the contact distance of the same pair (decided under C16/C03)'])

prop('C10',
     [('R00.dyn', RG.rule_no_dynamic), ('R10.d', RP.rule_definition), ('R03.d', RP.rule_core),
      ('R10.k', RP.rule_cut_shift), ('R10.i', RP.rule_core_infinite), ('R10.f', RP.rule_flag_truthiness),
      ('R10.w', RP.rule_wca), ('R10.p', RP.rule_purity), ('R10.h', RP.rule_history), ('R10.t', RP.rule_contact),
      ('R10.g', RD.rule_grid_products), ('R16.w', RP2.rule_wiring), ('R16.v', RPS.rule_wiring_concrete), ('R16.c', RP2.rule_copy_and_frame),
      ('R15.s', R15_DIAMETER)],
     'Added later: high_value=+inf under IEEE rules (R10.i), boolean options passed as numpy.bool_ (R10.f), the concrete constructor wiring R16.v. Static analysis of pyPRISM/potential: constructors and calculate(r) of every Potential subclass are abstractly '
     'interpreted with symbolic parameters (stored lambdas inlined with their captured constructor arguments, '
     'super().calculate followed through the MRO) for every flag valuation (rcut None/given, shift); the piecewise '
     'term is compared region by region with the documented u(r) (spec/potentials.py); cut/shift continuity by '
     'substitution r:=rcut; the WCA perfect-square certificate; purity/repeatability on a heap with identity; and the '
     'contact rule (a core mask must not compare the floating-point grid with sigma exactly); evaluation histories '
     '(sigma re-assigned, another grid before, returned array edited) must reproduce a fresh potential (R10.h); result '
     'buffers allocated with the dtype of r are reported (integer grids truncate).',
     'floating-point evaluation error of the formulas; sigma defaulting from the diameters is decided under C16 (R10.s).',
     ['epsilon >= 0 for the WCA non-negativity certificate'])

prop('C03',
     [('R00.dyn', RG.rule_no_dynamic), ('R03.a', RC.rule_core_only), ('R03.i', RC.rule_core_infinite), ('R03.t', RC.rule_flag_truthiness),
      ('R03.b', RC.rule_mask_sites),
      ('R03.c', RC.rule_noflag_limit),
      ('R03.d', RP.rule_core), ('R09.p', RC.rule_purity), ('R09.h', RC.rule_history_values),
      ('R16.w', RP2.rule_wiring), ('R16.v', RPS.rule_wiring_concrete), ('R16.c', RP2.rule_copy_and_frame), ('R10.h', RP.rule_history)],
     'Static analysis: (a) with the hard-core flag every closure returns exactly -1-gamma on r<sigma and r==sigma '
     '(three orderings enumerated on the extracted piecewise term), hence c+gamma=-1 there for every gamma; '
     '(b) the mask compares the grid argument with the closure own sigma; (c) PY and HNC without the flag reduce to '
     '-1-gamma when exp(-u) -> 0; (d) the three hard-core potentials put the overlap value on exactly the same region.',
     'the bound |g| <= residual/r on solved objects (a numerical statement about converged solves); that '
     'exp(-high_value/kT) underflows to 0 in floating point (premise of (c), recorded as an assumption).',
     ['exp(-high_value/kT) == 0.0 in double precision for the default high_value'])


prop('C07',
     [('R00.dyn', RG.rule_no_dynamic), ('R07.i', RD.rule_mutators), ('R07.g', RD.rule_grid),
      ('R07.t', RD.rule_roundtrip), ('R07.l', RD.rule_linearity), ('R08.t', RD.rule_prefactors),
      ('R07.m', RD.rule_matrixarray_transforms), ('R13.3', RM.rule_get_copy), ('R07.v', RG.rule_reshape_stores),
      ('R07.j', RD.rule_two_domains), ('R08.i', RD.rule_integer_spacing), ('R07.c', RD.rule_matrixarray_transforms_concrete)],
     'Added later: the MatrixArray transforms are also executed on real MatrixArrays of concrete rank 1, 3 and 2 in turn on one Domain (R07.c); Domains built from an integer spacing and then re-spaced must equal float-spaced ones (R08.i); the constructor given both spacings is refused or consistent (R07.i). Static analysis of pyPRISM/core/Domain.py: the constructor and the three property setters are abstractly '
     'interpreted with symbolic length/spacings; after each mutator every grid attribute (_dr,_dk,_length,r,k,DST '
     'coefficient arrays,long_r) must equal, as a canonical term, that of a freshly constructed Domain with the same '
     'length and dr (an inductive invariant, so it covers every setter sequence); the grids must be dr*(1+iota(length)) '
     'with a point count determined by length alone; to_real(to_fourier(f)) and the reverse normalise to the identity '
     'using linearity of the DST and dst3 o dst2 = 2N id; both transforms are linear; the MatrixArray versions refuse '
     'an array already in the target space before any write, transform every unordered pair through the symmetric '
     'setter and set the flag after the loop.',
     'rounding error magnitude; the behaviour of scipy.fftpack.dst itself (trusted, A2).')

prop('C08',
     [('R00.dyn', RG.rule_no_dynamic), ('R08.f', RD.rule_prefactors), ('R08.i', RD.rule_integer_spacing), ('R07.g', RD.rule_grid), ('R07.i', RD.rule_mutators)],
     'Added later: integer-typed spacings (R08.i: np.reciprocal, slice stores into an integer grid). Static analysis: the extracted transforms equal dst2(2 pi r dr f)/k and dst3(k dk/(4 pi^2) F)/r term by term '
     '(absolute prefactors of the 3-D radial pair: with the factor 2 built into DST-II/III, forward 4 pi and backward '
     '1/(2 pi^2)), DST types 2/3 without normalisation keywords, dk = pi/(dr*length), r_i=(i+1)dr, k_j=(j+1)dk. This is '
     'exactly the compensating-error class to which the round-trip test is blind.',
     'the O(dr) error bound against the continuous transform and its decrease under refinement (numerical analysis; '
     'not a shape of the code).')


def _r13_arith(ctx):
    return RM.rule_arithmetic(ctx)


prop('C13',
     [('R00.dyn', RG.rule_no_dynamic), ('R13.1', RM.rule_members), ('R13.2', RM.rule_space_guard),
      ('R13.5', _r13_arith), ('R13.b', RM.rule_broadcast), ('R13.6', RM.rule_dot_invert), ('R13.o', RM.rule_rank_one), ('R13.3', RM.rule_get_copy),
      ('R13.9', RM.rule_items),
      ('R13.u', RM.rule_unknown_names),
      ('R13.i', RM.rule_iterpairs), ('R13.I', RM.rule_identity), ('R13.h', RM.rule_history), ('R13.t', RM.rule_typemap)],
     'Added later: a row-vector operand of shape (rank,) (R13.5), dot/invert in Fourier space (R13.6/R13.7), the same right operand modified between two calls (R13.h), and every member executed on rank-1 arrays of the real class (R13.o; the symbolic worlds assume a generic rank >= 2). Static analysis of pyPRISM/core/MatrixArray.py: every operator member is abstractly interpreted on a heap with '
     'array identity for each operand kind (MatrixArray, scalar, ndarray): the result term must be the elementwise '
     'operation (einsum literal parsed to the batch matrix product for dot, linalg.inv for invert); out-of-place '
     'results must be new objects with fresh data and no write to either operand, in-place members must write only '
     'self.data and return self; in-place/out-of-place siblings must denote the same term; the space guard is '
     'evaluated on all 9 space pairs and must refuse exactly Real x Fourier before any write; the real '
     '__setitem__/__getitem__ are interpreted for a==b and a!=b (mirrored store, view getter, KeyError->ValueError at '
     'all four look-ups); iterpairs decided by executing the real generator for rank 1..4; IdentityMatrixArray '
     'construction; two successive out-of-place calls per member and per receiver class must give independent results '
     'with no retained buffer (R13.h).',
     'numerical conditioning of linalg.inv (A.dot(A.invert()) == I only to rounding); numpy broadcasting shape errors.')


prop('C14',
     [('R00.dyn', RG.rule_no_dynamic), ('R14.c', R14_SETITEM), ('R14.g', R14_GETITEM),
      ('R14.i', R14_ITERPAIRS), ('R14.u', R14_SETUNSET), ('R14.a', R14_APPLY),
      ('R14.l', RT.rule_listify), ('R14.v', R14_VALUETABLE), ('R12.e', RT.rule_export)],
     'Static analysis of PairTable/ValueTable/Table: def-use and dominance queries on the parsed methods decide that '
     'each assigned cell receives a deepcopy made inside the innermost key loop (never the caller object, never one '
     'copy shared by several cells), that the mirrored cell is written exactly when the table is symmetric (guard truth '
     'table over symmetric x t1==t2), that setUnset assigns through the copying setter only where the value is None, '
     'that check raises ValueError exactly on a None entry while visiting every unordered pair, the iterpairs '
     'predicate truth tables over (i<j,i==j,i>j) for all four flag valuations (lambdas evaluated abstractly) and '
     'type-list order, apply(inplace) frame condition (abstract interpretation with symbolic pair labels), listify on '
     'the four argument kinds, ValueTable setter/getter/iteration, and the export guards.  Since the build phase the '
     'deciding rules are abstract executions of the real classes on a table over four concrete labels with opaque '
     'values (pv/rules/tables_sem.py: data-independence argument); the shape-based rules only confirm when a rewritten '
     'method cannot be executed.',
     'nothing behavioural beyond Python dict semantics (trusted); histories are covered because each rule is an '
     'invariant of a single method.', trusted=('A1',))


prop('C15',
     [('R00.dyn', RG.rule_no_dynamic), ('R15.f', R15_DENSITY), ('R15.s', R15_DIAMETER),
      ('R15.k', R15_CHECKS), ('R15.c', RDS.rule_total_no_stale_operand), ('R15.w', RDn.rule_who_may_write), ('R13.9', RM.rule_items),
      ('R14.m', R14_SETITEM), ('R14.k', R14_SETUNSET)],
     'Added later: R15.c runs the Density setter in uninterpreted arithmetic: the expression that produces total after a re-assignment must not involve the overwritten value. Static analysis of Density/Diameter by abstract execution of the real classes (with the real ValueTable, PairTable and '
     'MatrixArray underneath) on concrete type lists of 1-4 labels -- strings and integers, boxed so that a label is equal to, '
     'never identical with, the entry of the type list -- over every bounded assignment history (single keys, list keys in both '
     'orders, one-shot iterables, re-assignment; one fresh symbol per assignment): density, total, pair and site in both orders, '
     'diameter, volume, sigma in both orders, the two-key read and check() are compared with the stated formulas as canonical '
     'terms after each history (pv/rules/density_sem.py).  That is the quantifier of the property.  The older rules (symbolic '
     'label, case split over the partner type) only confirm when the real classes cannot be executed; who-may-write sweep; the '
     'symmetric setters of MatrixArray and PairTable (R13.9, R14.m); call interface (R00.sig).',
     'floating-point rounding of the products/sums.', trusted=('A1', 'A4', 'A5'))


prop('C12',
     [('R00.dyn', RG.rule_no_dynamic), ('R12.g', RO.rule_fromarray), ('R12.f', RO.rule_fromfile),
      ('R12.e', RT.rule_export), ('R12.w', RP2.rule_omega_length_guard)],
     'Static analysis of FromArray/FromFile: constructor and calculate(k) are abstractly interpreted; every normally '
     'returning path (asserts and if/raise alike, paths enumerated over the data-dependent branches) must carry the '
     'facts len(values)==len(k) and, when a k column exists, len(k column)==len(k) and np.allclose(k column, k) with '
     'default tolerances; the returned term must be the stored array / second file column itself (no arithmetic, '
     'slicing or re-ordering); the constructor must store fresh copies (np.array, not np.asarray/assignment) and '
     'calculate must write nothing; the same facts are required for a second evaluation on another grid (a cached table '
     'must not skip the guards); PairTable.exportToMatrixArray is executed abstractly on equal / unequal / unset tables; '
     'PRISM.__init__ must route the evaluated omega table through that guard (R12.w); omega and k passed as list / tuple; '
     'loadtxt options that drop rows before the guards; a table of single numbers (0-d arrays) must be refused by the export.',
     'np.loadtxt / np.allclose behaviour (trusted); asserts under python -O (A3); rejection of a wrong-length one-column '
     'file in a rank-1 system happens in numpy shape checking, not in pyPRISM code.', trusted=('A1', 'A2', 'A3'))


prop('C05',
     [('R00.dyn', RG.rule_no_dynamic), ('R05.g', RCa.rule_pair_correlation), ('R05.w', RCa.rule_pmf),
      ('R05.s', RCa.rule_structure_factor), ('R05.b2', RCa.rule_second_virial), ('R05.x', RCa.rule_chi),
      ('R05.l', RCa.rule_spinodal), ('R05.p', RCa.rule_solvation), ('R05.sym', RCa.rule_matrix_symmetry),
      ('R06.s', RCa.rule_frame_and_typestate), ('R06.h', RCa.rule_resolve_history)],
     'Static analysis of pyPRISM/calculate: each of the seven functions is abstractly interpreted on a symbolic PRISM '
     'object (arrays as tensor symbols, pair loops executed once with symbolic type labels, MatrixArray operators '
     'interpreted from their source) for every flag valuation; the returned term is compared with the definition in '
     'spec/calculate.py as an identity over the reals (exact rational-function normal form; matrix products as '
     'non-commutative word series; linear transforms normalised); chi is decided reference-free (linearity, weight '
     'ratios 1/R:R:-2, equal-volume limit); pair coverage (every i<j / every ordered pair), label-swap symmetry, '
     'symmetric result tables, the 3-point quadratic extrapolation idiom.',
     'S = (I - Omega C)^-1 Omega on self-consistent objects (a theorem about solutions of the PRISM equation, no code '
     'computes it); floating-point error; np.polyfit numerics (trusted).')

prop('C06',
     [('R00.dyn', RG.rule_no_dynamic), ('R06.f', RCa.rule_frame_and_typestate), ('R06.h', RCa.rule_resolve_history), ('R01.f', RP2.rule_post_solve),
      ('R01.a', RP2.rule_cost), ('R07.t', RD.rule_roundtrip), ('R07.i', RD.rule_mutators),
      ('R07.m', RD.rule_matrixarray_transforms)],
     'Static analysis: every calculate function is abstractly interpreted for every flag valuation and every one of the '
     '8 combinations of spaces (Real/Fourier) the three stored arrays can be in, on a heap with array identity and '
     'views: (frame) the only persistent writes are the sanctioned in-place space transforms and brand-new cache '
     'attributes nobody reads; the Fourier content of totalCorr/directCorr/omega after the call equals the content '
     'before; (typestate) no combination raises and all give the same canonical result; (freshness) results share no '
     'memory with the object. Since each call preserves content and its result depends on content only, every finite '
     'call history gives the results of a fresh object; called again after a re-solve (new arrays / new contents) every '
     'function returns the value of a fresh object (R06.h); a second solve leaves exactly the state of a first one (R01.f).',
     'rounding introduced by repeated forward/backward transforms (C07 bounds it to rounding error); the numerical '
     'effect of re-solving.')


prop('C16',
     [('R00.dyn', RG.rule_no_dynamic), ('R16.x', _fb(RSS.rule_system_check, RP2.rule_system_check)), ('R16.i', RSS.rule_system_iterpairs), ('R16.d', RP2.rule_check_dominates),
      ('R16.c', RP2.rule_copy_and_frame), ('R16.w', RP2.rule_wiring), ('R16.v', RPS.rule_wiring_concrete), ('R14.c', R14_SETITEM),
      ('R14.k', R14_SETUNSET), ('R07.i', RD.rule_mutators)],
     'Added later: R16.v executes the real constructor on a real two-component System (types not in alphabetical order, real potentials and closures with symbolic parameters), fresh and after the System was re-configured in place, and compares every pair with what deep copies of the stored objects give outside the constructor; it also checks that the caller\'s System is left untouched. Static analysis of System/PRISM construction: System.check is decided by executing the real System (real tables, Domain, '
     'MatrixArrays) over concrete labels: the complete system passes without a write, each single omission (domain, a density, '
     'a diameter, a potential / closure / omega pair) is refused with ValueError, for string and integer labels; formerly: '
     'System.__init__ is interpreted to enumerate the tables it creates and '
     'System.check must visit each of them (and refuse a missing domain with ValueError) without writing; in '
     'createPRISM/solve an unconditional self.check() must dominate PRISM(self); PRISM.__init__ is abstractly interpreted '
     'on a symbolic, fully specified System with per-pair element objects: every effect on anything reachable from the '
     'caller\'s System is a violation, the PRISM object must share no mutable cell with it (deep copy), and the wiring '
     'facts are compared as terms: closure[a,b].sigma = diameter[a,b], closure[a,b].potential = potential[a,b](r)/kT with '
     'sigma defaulted only when None, omega = table evaluated on k, exported in Fourier space, times site density, for '
     'every unordered pair; attributes System.__init__ derives from kT are taken over and kT is re-assigned afterwards '
     '(a stale inverse temperature is visible as kT0); createPRISM/solve are executed with check and the PRISM '
     'constructor replaced by recording stubs (check passes / check raises).',
     'equality of the *solved numbers* of a swept and a fresh System (follows from these frame conditions only up to '
     'solver determinism).')


prop('C01',
     [('R00.dyn', RG.rule_no_dynamic), ('R01.a', RP2.rule_cost), ('R01.f', RP2.rule_post_solve), ('R01.s', RP2.rule_solver_arguments),
      ('R16.w', RP2.rule_wiring), ('R16.v', RPS.rule_wiring_concrete), ('R16.c', RP2.rule_copy_and_frame),
      ('R09.d', RC.rule_definition), ('R03.a', RC.rule_core), ('R09.p', RC.rule_purity), ('R09.h', RC.rule_history_values),
      ('R14.c', R14_SETITEM),
      ('R15.f', R15_DENSITY), ('R07.t', RD.rule_roundtrip), ('R07.i', RD.rule_mutators),
      ('R07.m', RD.rule_matrixarray_transforms),
      ('R13.5', _r13_arith), ('R13.6', RM.rule_dot_invert), ('R13.9', RM.rule_items)],
     'Static analysis: PRISM.__init__ and PRISM.cost are abstractly interpreted end to end on a symbolic System (per-pair '
     'closure/potential/omega objects, pair loops with symbolic labels, MatrixArray operators interpreted from source). '
     'Decided: (a) the solver vector is copied, never written through; (b) every unordered pair gets its own closure '
     'evaluated on r with its own block of x/r and stored under its own key; (c) rho_pair*totalCorr satisfies the matrix '
     'PRISM equation H = Omega C (Omega + H) as an identity of non-commutative word series in {Omega, C} (Omega = '
     'site-density scaled omega from __init__, C = Fourier transform of the closure output); (e) the returned residual is '
     'r*(toR(totalCorr-directCorr) - GammaIn) of this evaluation; (f) solve re-evaluates cost at the returned root so the '
     'stored arrays belong to result.x, and leaves totalCorr in real space; plus the shared lower-layer rules (each '
     'closure equals its published relation, density operators, transform pair, MatrixArray semantics).',
     'that a solve converges, the size of the residual, floating-point error; the bound "discrepancy <= residual x closure '
     'slope" is a numerical statement about scipy.optimize.root output.',
     ['the root finder returns result.x as its solution (scipy, trusted)'])


prop('C11',
     [('R00.dyn', RG.rule_no_dynamic), ('R11.d', ROm.rule_closed_forms), ('R11.d', ROm.rule_ring),
      ('R11.d', ROm.rule_trivial), ('R11.a', ROm.rule_aliases), ('R11.m', ROm.rule_koyama_multiplicity),
      ('R11.k', ROm.rule_koyama_kernel), ('R11.g', ROm.rule_koyama_moments), ('R11.b', ROm.rule_koyama_bending), ('R11.v', ROm.rule_koyama_rejection), ('R11.e', ROm.rule_nfjc),
      ('R11.h', ROm.rule_history), ('R11.i', ROm.rule_instances), ('R11.l', ROm.rule_library_names)],
     'Static analysis of pyPRISM/omega: Gaussian and FreelyJointedChain terms are extracted with a symbolic chain length '
     '(E^(N+1) as a symbolic power) and compared with the closed form, whose equality with the defining pair sum '
     '(1/N) sum_ij E^|i-j| is certified by a 4-step induction checked by the normaliser on every run, plus explicit pair '
     'sums for N=1..6; GaussianRing: the summation loop becomes a Sum term (symbolic N) and is unrolled for N=1..6 '
     'against the ring pair sum; DiscreteKoyama: the pair loop is instantiated from its headers for N=2..8 (thorough: 64) '
     'with the kernel kept symbolic, which decides the multiplicity N-n of each separation and hence the k->0 sum rule; '
     'kernel shape sin(Bk)/(Bk)exp(-Ak^2); every constructing path of DiscreteKoyama.__init__ carries l>sigma/2 and '
     'lp>=lp_min (paths enumerated, refusals are ValueError); scalar-only math.* never fed the ndarray that '
     'scipy.optimize.root hands to its callback; NFJC integrates over the x axis only; every numpy/scipy/math name used '
     'exists in the pinned libraries; aliases; three two-call histories per model (other grid before, same k buffer re-used '
     'with new contents, returned array edited) must give the value of a fresh model, and no branch of calculate may '
     'depend on a reduction over the whole k array (R11.h, R11.e).',
     'finiteness at the small k of a real grid (catastrophic cancellation in (1-E)^2 is a floating-point fact), NFJC '
     'quadrature accuracy and its nan when k hits an x node, <r^4> of the Koyama chain for n >= 3 (no elementary identity; n = 1, 2 and the whole <r^2> series are checked).',
     ['|E| <= 1 for E=exp(-x^2) and E=sin(x)/x; the bounds omega<=N, omega->N, omega->1 follow from the certified sum form'])


def _r17_libnames(ctx):
    return ROm.rule_library_names(ctx, 'R17.a', packages=('pyPRISM.util',))


prop('C17',
     [('R00.dyn', RG.rule_no_dynamic), ('R17.d', RU.rule_conversions), ('R17.h', RU.rule_call_history), ('R17.r', RU.rule_registry_isolation), ('R17.c', RU.rule_definitions), ('R17.u', RU.rule_unit_literals)],
     'Added later: functools.lru_cache and the registry identity of pint quantities are modelled; R17.r builds two converters from identical arguments; R17.h re-converts the same array object after its contents changed and checks that an earlier result is not overwritten; R17.l requires array in, array out for every array shape. Static analysis of pyPRISM/util/UnitConverter.py: the constructor and the six documented conversion methods are '
     'abstractly interpreted with pint quantities modelled as (magnitude term, unit monomial); the pinned pint registry is '
     'consulted as library metadata for existence, dimensionality, base factor and offset of every unit literal (a '
     'dimension mismatch raises DimensionalityError in the model exactly where pint would, which exercises the molar / '
     'non-molar retry in toKelvin); pi, N_A, k_B stay symbolic so that the returned magnitude can be compared with the '
     'textbook formula as a term; every method must return the result of a final .to(<plain unit>) (pint keeps pi, N_A, '
     'k_B as units, so an unconverted product has the wrong magnitude); linear/affine in the argument; every unit '
     'literal in the module must exist in the registry; two converters must not share a registry (R17.r); characteristic '
     'values must reach the registry losslessly (R17.c); no in-place operator on a magnitude that still has the dtype '
     'or the memory of the argument (R17.l).',
     'pint conversion arithmetic itself (trusted); elementwise behaviour on arrays follows from magnitudes being '
     'products/quotients only (no reductions) but numpy broadcasting is not modelled.',
     trusted=('A1', 'A4', 'A5'))


prop('C04',
     [('R00.dyn', RG.rule_no_dynamic), ('R04.a', RI.rule_swap_symmetry), ('R04.b', RI.rule_symmetric_tables),
      ('R04.c', RI.rule_label_parametricity), ('R04.e', RI.rule_potential_degree), ('R04.k', RI.rule_kT_degree),
      ('R15.f', R15_DENSITY), ('R15.s', R15_DIAMETER), ('R13.9', RM.rule_items),
      ('R14.m', R14_SETITEM), ('R13.i', RM.rule_iterpairs), ('R13.t', RM.rule_typemap), ('R14.i', R14_ITERPAIRS),
      ('R05.x', RCa.rule_chi), ('R05.l', RCa.rule_spinodal), ('R05.b2', RCa.rule_second_virial),
      ('R16.w', RP2.rule_wiring), ('R16.v', RPS.rule_wiring_concrete), ('R01.a', RP2.rule_cost)],
     'Static analysis of the structural part: (permutation/renaming) core/ and calculate/ never address a type by a '
     'literal name or position and compare labels only for (in)equality, all type-keyed storage is symmetric (MatrixArray '
     'setter, PairTable mirror, no asymmetric table is ever constructed), every pair loop visits each unordered pair once '
     '(predicate truth tables) and every per-pair formula is symmetric under exchange of the two labels; (energy scale) '
     'every potential is homogeneous of degree 1 in its energy parameters, the closure sees u/kT, the cost residual is '
     'invariant under a joint rescaling of all potentials and kT, structural results are independent of kT, and pmf / '
     'solvation potential are linear in kT; plus the density conventions (rho_a rho_b, rho_a / rho_a+rho_b) that the '
     'species-splitting identity relies on.',
     'the species-splitting identity g_AA = g_AB = g_BB = g (a theorem about the PRISM equations with these density '
     'conventions, not a shape of the code) and "equal to the accuracy of two converged solves".')


_ANCHORS = {}


def _anchor_files(pid):
    if not _ANCHORS:
        import json as _json
        import os as _os
        from .report import VERIF as _V
        for line in open(_os.path.join(_V, 'properties.jsonl')):
            rec = _json.loads(line)
            _ANCHORS[rec['id']] = set(rec.get('anchors', {}).get('files', []))
    return _ANCHORS.get(pid, set())


def run(pid, tier, repo, seed=0, replay=None, write=True):
    if pid not in PROPS:
        print('ANALYSIS-ERROR property=%s: no check is registered for this property' % pid)
        return 2
    spec = PROPS[pid]
    try:
        prog = load(repo)
    except AnalysisError as e:
        print('ANALYSIS-ERROR property=%s: %s' % (pid, e))
        return 2
    ctx = Ctx(pid, tier, prog, seed)
    ctx.trusted |= set(spec['trusted'])
    from . import lib as _L
    _L.STRICT_AXIS = pid in ('C07', 'C08')
    # the transforms are claimed for *every* array by C07/C08 (and the potentials / closures for every grid); inside the
    # solver pipeline (C01, C05, C06) every array that reaches them was allocated by the package as float64
    _L.FLOAT_PIPELINE = pid in ('C01', 'C05', 'C06')
    for rid, fn in spec['rules']:
        ctx.run(rid, fn)
    # the call interface of the files this property is anchored in (shared rule, restricted per property)
    from .rules import signatures as _SG
    files = _anchor_files(pid)
    ctx.run('R00.sig', lambda c: _SG.rule_signatures(c, files=files))
    if tier == 'thorough' and replay is None:
        from . import thorough
        thorough.run(ctx, repo)
    if replay is not None:
        hit = [o for o in ctx.obl if o['status'] == VIOLATION and
               (o['rule'], o['construct'], o['key']) == (replay['rule'], replay['construct'], replay['key'])]
        for o in ctx.obl:
            if o in hit:
                print('REPLAY VIOLATION %s %s %s -- %s' % (o['rule'], o['construct'], o['key'], o['detail']))
        if hit:
            print('VIOLATION property=%s replay=%s' % (pid, 'replayed'))
            return 1
        print('replayed obligation %s %s %s no longer violates' % (replay['rule'], replay['construct'], replay['key']))
        return 0
    return ctx.finish(spec['explanation'], spec['not_decided'], spec['assumptions'], write=write)
