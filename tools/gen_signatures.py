#!/venv/bin/python
"""Extract the reference call interface (parameter names, order, kinds, default values) of the public callables of
/repo/pyPRISM into /verif/spec/signatures.json.  Run once on the pinned tree; re-run only when the interface is meant
to change."""
import json, os, sys
sys.path.insert(0, os.path.dirname(os.path.dirname(os.path.abspath(__file__))))
sys.path.insert(0, os.path.join(os.path.dirname(os.path.dirname(os.path.abspath(__file__))), 'spec'))
from pv import model
from pv.rules import signatures as S
prog = model.load(sys.argv[1] if len(sys.argv) > 1 else '/repo')
out = {}
for q, (fn, rel, scopes) in sorted(S.public_callables(prog).items()):
    out[q] = {'file': rel, 'sig': S.signature_of(fn, scopes)}
json.dump(out, open(S.REF, 'w'), indent=1, sort_keys=True)
print('%d callables written to %s' % (len(out), S.REF))
