#!/venv/bin/python
"""seed_show.py DIR...  : evaluate candidate seeds in parallel and print a compact summary"""
import json, os, subprocess, sys
from concurrent.futures import ThreadPoolExecutor
HERE = os.path.dirname(os.path.abspath(__file__))
def one(d):
    subprocess.run(['/venv/bin/python', os.path.join(HERE, 'seed_eval.py'), d, '--json', os.path.join(d, 'eval.json')], capture_output=True, text=True)
    return d
ds = sys.argv[1:]
with ThreadPoolExecutor(6) as ex:
    list(ex.map(one, ds))
for d in ds:
    print('===', d)
    try:
        r = json.load(open(os.path.join(d, 'eval.json')))
    except Exception as e:
        print('  no result', e); continue
    print('  ', {k: r.get(k) for k in ('valid', 'tests_passed', 'demo_clean_rc', 'demo_patched_rc', 'caught_by', 'undecided_by')})
    for l in open(os.path.join(d, 'patch.diff')).read().splitlines():
        if l.startswith(('+', '-')) and not l.startswith(('+++', '---')):
            print('     ', l[:160])
    seen = set()
    for p, c in sorted(r.get('checks', {}).items()):
        if c['rc'] != 0:
            for l in c['lines'][:4]:
                if not l.startswith('VIOLATION property') and l[14:200] not in seen:
                    print('   ', p, l[:340]); seen.add(l[14:200])
