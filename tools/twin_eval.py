#!/venv/bin/python
"""twin_eval.py DIR... : apply each behaviour-preserving patch (DIR/patch.diff) to a scratch copy of /repo/pyPRISM and
run every registered check on it.  exit 1 of a check = FALSE ALARM (must be fixed in the checker); exit 2 = undecided."""
import json, os, shutil, subprocess, sys, tempfile
from concurrent.futures import ThreadPoolExecutor
HERE = os.path.dirname(os.path.abspath(__file__))
VERIF = os.path.dirname(HERE)
sys.path.insert(0, HERE)
import seed_eval


def one(d):
    tmp = tempfile.mkdtemp(prefix='tw.', dir='/var/tmp')
    try:
        shutil.copytree('/repo/pyPRISM', os.path.join(tmp, 'pyPRISM'), ignore=shutil.ignore_patterns('__pycache__', '*.so', '*.c'))
        p = subprocess.run(['git', 'apply', '--whitespace=nowarn', os.path.join(d, 'patch.diff')], cwd=tmp, capture_output=True, text=True)
        if p.returncode:
            return d, None, p.stderr[-300:]
        checks = seed_eval.run_checks(tmp, seed_eval.all_props(), jobs=4)
        return d, checks, ''
    finally:
        shutil.rmtree(tmp, ignore_errors=True)


def main():
    ds = [os.path.abspath(x) for x in sys.argv[1:]]
    alarms = und = 0
    with ThreadPoolExecutor(5) as ex:
        for d, checks, err in ex.map(one, ds):
            if checks is None:
                print('%-40s PATCH DOES NOT APPLY %s' % (d[-40:], err)); continue
            a = [pid for pid, rc, _ in checks if rc == 1]
            u = [pid for pid, rc, _ in checks if rc == 2]
            alarms += bool(a); und += bool(u)
            print('%-40s %s alarms=%s undecided=%s' % (d[-40:], 'FALSE-ALARM' if a else ('undecided' if u else 'silent'), ','.join(a), ','.join(u)))
            if a or u:
                why = os.path.join(d, 'why.txt')
                if os.path.exists(why):
                    print('     why:', open(why).read().strip().replace('\n', ' ')[:300])
                seen = set()
                for pid, rc, lines in checks:
                    if rc:
                        for l in lines[:4]:
                            if not l.startswith('VIOLATION property') and l[14:160] not in seen:
                                print('    ', pid, l[:330]); seen.add(l[14:160])
    print('%d patches: %d false alarms, %d undecided' % (len(ds), alarms, und))


if __name__ == '__main__':
    main()
