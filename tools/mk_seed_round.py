#!/venv/bin/python
"""mk_seed_round.py <tag> <n> [Cxx ...]: prepare one seed task per property with a diversity hint that lists what was
already produced for that property (summaries of /verif/seeded/*/meta.json only -- nothing about the checks)."""
import glob, json, os, sys
sys.path.insert(0, os.path.dirname(os.path.abspath(__file__)))
import mk_seed_task

FOCUS = {
    'e': "This time prefer, in this order: (a) a clause of the statement or a code anchor file that the list above never touches; "
         "(b) behaviour on an *error or refusal path* (which exception, when, before or after state was changed); (c) behaviour that "
         "depends on the *type* of an input rather than its value (tuple vs list keys, numpy scalar vs float, integer vs float arrays, "
         "subclass or alias of a documented class, keyword vs positional argument); (d) two library objects of the same class alive at "
         "once, or one object used, modified by the caller, and used again; (e) a default argument, module-level constant or class "
         "attribute that silently becomes shared or stale.",
    'f': "This time prefer, in this order: (a) a change made of TWO small cooperating edits in different functions or files that each "
         "look harmless alone (a producer and its consumer, a base class and a subclass, a constructor and a later method, the "
         "package __init__ and a module); (b) inheritance and method resolution (a method moved to / overridden in a base class such "
         "as Table, Omega, Potential, Closure, AtomicClosure; super() calls; an alias subclass that gains a member; class attributes "
         "vs instance attributes; @property vs plain attribute; __eq__/__hash__/__len__/__iter__/__contains__ added to a library "
         "class and silently changing how other code treats it); (c) the Space enumeration and comparisons with it (== vs is, "
         "string vs enum, truthiness); (d) numerical-looking edits that are exact for the tested sizes only (integer division, "
         "// vs /, int() truncation, range end points, len() vs shape[0], axis arguments, broadcasting of length-1 arrays); "
         "(e) order of evaluation: a read that now happens before/after a write it used to follow/precede.",
    'g': "This time every change must be a plausible PERFORMANCE OPTIMISATION or RESOURCE SAVING that a maintainer would merge after "
         "looking at a profile: vectorising a Python loop, hoisting a computation out of a loop or into the constructor, caching / "
         "memoising a result (on the instance, the class or the module), reusing a buffer or avoiding a copy (views, out= arguments, "
         "in-place operators, np.asarray instead of np.array, shallow instead of deep copies), skipping work that 'cannot have changed', "
         "short-circuiting, lazy evaluation, lower precision or fewer quadrature / grid points 'where it does not matter', early exits "
         "from loops.  It must be correct for the cases the tests and the obvious use exercise and wrong only for a specific history, "
         "input size, parameter regime or aliasing situation.  Do not repeat the optimisations already listed above.",
    'h': "This time every change must be a plausible API EVOLUTION: a new optional parameter whose default interacts badly with an "
         "existing one, accepting additional input types (tuples, numpy scalars, generators, strings) in one place but not in the code "
         "it feeds, a renamed attribute kept alive through a property or alias that goes stale, a deprecation shim, a changed return "
         "convention (view vs copy, list vs tuple, float vs 0-d array) that downstream code of the package relies on, a more general "
         "signature implemented for the common case only, stricter or looser validation at one of several entry points.",
    'i': "This time every change must misbehave only on BOUNDARY inputs or on ERROR PATHS that the property statement covers but the "
         "tests never reach: one-component systems, the last pair of a 3- or 4-component system, a single-element or very short "
         "array, chain length 1 or 2, equal or zero-valued parameters, a grid point exactly at contact, kT different from 1, an array "
         "that is already in the other space, an empty or one-element key list, the first call versus later calls -- or a guard that "
         "is moved after a side effect, an exception whose type changes, a refusal that becomes a silent acceptance (or the other way "
         "round), a check that is skipped on one of several code paths. The common, well-tested path must keep working exactly.",
}


def main():
    tag, n = sys.argv[1], int(sys.argv[2])
    pids = sys.argv[3:] or [c['property_id'] for c in json.load(open('/verif/MANIFEST.json'))['checks']]
    by = {}
    for f in sorted(glob.glob('/verif/seeded/*/meta.json')):
        m = json.load(open(f))
        by.setdefault(m.get('property'), []).append((m.get('summary') or '')[:170])
    for pid in pids:
        done = by.get(pid, [])
        extra = ''
        if done:
            extra = ("\nIMPORTANT - diversity: other engineers have already produced the following changes for this property; do NOT "
                     "repeat them or close variants of them. Already done: " +
                     ' ; '.join('(%d) %s' % (i + 1, s) for i, s in enumerate(done)) + "\n" + FOCUS.get(tag[-1], FOCUS['e']) + "\n")
        print(mk_seed_task.mk(pid, tag, n, extra))


if __name__ == '__main__':
    main()
