#!/venv/bin/python
"""twin_fuzz.py [--n N] [--seed S] [--tests] [--keep DIR] [--only KIND,...]

Mechanical robustness sweep for the checkers: applies ONE behaviour-preserving syntactic rewrite at a random site
of /repo/pyPRISM (scratch copy under /var/tmp, removed afterwards), re-emits the module with ast.unparse and runs every
registered check on the result.  Any exit 1 is a false alarm of the checker, any exit 2 a lost decision.

Rewrites (each is an identity on behaviour for every input):
  unparse      no change except re-emission of the file (formatting, comments, line numbers all move)
  rename       a function-local variable gets a fresh name
  temp         `x = e`      ->  `_pv_t = e; x = _pv_t`
  rettemp      `return e`   ->  `_pv_r = e; return _pv_r`
  ifflip       `if c: A else: B`  ->  `if not (c): B else: A`
  constmul     `<const> * e` -> `e * <const>`
  cmpswap      `a < b` -> `b > a`   (single comparison, ordering and (in)equality operators)
  demorgan     `if a and b:` -> `if not (not a or not b):`    (same for or)
  kwreorder    keyword arguments of a call reversed (no **kwargs)
  passpad      a `pass` statement inserted at the head of a function body (after the docstring)
  elifnest     handled by unparse itself
With --tests the repository test suite is run on every variant too (a failing variant is a bug of this tool, not of the
checkers, and is reported as INVALID)."""
import argparse
import ast
import copy
import json
import os
import random
import shutil
import subprocess
import sys
import tempfile
from concurrent.futures import ThreadPoolExecutor

HERE = os.path.dirname(os.path.abspath(__file__))
VERIF = os.path.dirname(HERE)
sys.path.insert(0, HERE)
import seed_eval  # noqa: E402

PKG = '/repo/pyPRISM'
SKIP_DIRS = {'test', '__pycache__'}


def files():
    out = []
    for root, dirs, fs in os.walk(PKG):
        dirs[:] = [d for d in dirs if d not in SKIP_DIRS]
        for f in fs:
            if f.endswith('.py'):
                out.append(os.path.join(root, f))
    return sorted(out)


# ---------------------------------------------------------------------------------------------------------------------
# site enumeration: every site is (kind, file, locator) where locator identifies the node by preorder index


def preorder(tree):
    return list(ast.walk(tree))


def bound_in_nested(fn, name):
    """True if `name` is bound by a nested scope of fn (lambda/def parameter, comprehension target, nested assignment)."""
    for node in ast.walk(fn):
        if node is fn:
            continue
        if isinstance(node, (ast.FunctionDef, ast.AsyncFunctionDef, ast.Lambda)):
            a = node.args
            for arg in a.posonlyargs + a.args + a.kwonlyargs + ([a.vararg] if a.vararg else []) + ([a.kwarg] if a.kwarg else []):
                if arg.arg == name:
                    return True
            if not isinstance(node, ast.Lambda):
                if node.name == name:
                    return True
                for sub in ast.walk(node):
                    if isinstance(sub, ast.Name) and sub.id == name and isinstance(sub.ctx, (ast.Store, ast.Del)):
                        return True
                    if isinstance(sub, (ast.Global, ast.Nonlocal)) and name in sub.names:
                        return True
        if isinstance(node, (ast.ListComp, ast.SetComp, ast.DictComp, ast.GeneratorExp)):
            for g in node.generators:
                for sub in ast.walk(g.target):
                    if isinstance(sub, ast.Name) and sub.id == name:
                        return True
        if isinstance(node, ast.ClassDef):
            return True
    return False


def own_nodes(fn):
    """nodes of fn excluding nested function/class bodies (but including lambdas/comprehensions)"""
    stack = list(ast.iter_child_nodes(fn))
    while stack:
        n = stack.pop()
        yield n
        if isinstance(n, (ast.FunctionDef, ast.AsyncFunctionDef, ast.ClassDef)):
            continue
        stack.extend(ast.iter_child_nodes(n))


def local_names(fn):
    params = set()
    a = fn.args
    for arg in a.posonlyargs + a.args + a.kwonlyargs + ([a.vararg] if a.vararg else []) + ([a.kwarg] if a.kwarg else []):
        params.add(arg.arg)
    stores, banned = set(), set()
    for n in own_nodes(fn):
        if isinstance(n, ast.Name) and isinstance(n.ctx, ast.Store):
            stores.add(n.id)
        if isinstance(n, (ast.Global, ast.Nonlocal)):
            banned.update(n.names)
        if isinstance(n, (ast.Import, ast.ImportFrom)):
            for al in n.names:
                banned.add((al.asname or al.name).split('.')[0])
        if isinstance(n, ast.ExceptHandler) and n.name:
            banned.add(n.name)
        if isinstance(n, (ast.FunctionDef, ast.ClassDef)):
            banned.add(n.name)
    uses_locals = any(isinstance(n, ast.Call) and isinstance(n.func, ast.Name) and n.func.id in ('locals', 'vars', 'eval', 'exec')
                      for n in ast.walk(fn))
    if uses_locals:
        return []
    return sorted(x for x in stores - params - banned if not bound_in_nested(fn, x))


def enumerate_sites(path, tree):
    sites = [('unparse', path, None)]
    nodes = preorder(tree)
    for i, n in enumerate(nodes):
        if isinstance(n, ast.FunctionDef):
            for name in local_names(n):
                sites.append(('rename', path, (i, name)))
            sites.append(('passpad', path, i))
        if isinstance(n, ast.Assign) and len(n.targets) == 1 and isinstance(n.targets[0], ast.Name):
            sites.append(('temp', path, i))
        if isinstance(n, ast.Return) and n.value is not None:
            sites.append(('rettemp', path, i))
        if isinstance(n, ast.If):
            sites.append(('ifflip', path, i))
            if isinstance(n.test, ast.BoolOp):
                sites.append(('demorgan', path, i))
        if isinstance(n, ast.BinOp) and isinstance(n.op, ast.Mult) and isinstance(n.left, ast.Constant) \
                and isinstance(n.left.value, (int, float)) and not isinstance(n.left.value, bool):
            sites.append(('constmul', path, i))
        if isinstance(n, ast.Compare) and len(n.ops) == 1 and isinstance(n.ops[0], (ast.Lt, ast.Gt, ast.LtE, ast.GtE, ast.Eq, ast.NotEq)):
            sites.append(('cmpswap', path, i))
        if isinstance(n, ast.Call) and len(n.keywords) >= 2 and all(k.arg is not None for k in n.keywords):
            sites.append(('kwreorder', path, i))
    return sites


def in_class_or_module_body(tree, stmt):
    """statements directly in a class/module body cannot take a fresh temp without adding an attribute/global"""
    for n in ast.walk(tree):
        if isinstance(n, (ast.Module, ast.ClassDef)) and stmt in n.body:
            return True
    return False


def enclosing_function(tree, node):
    best = None
    for n in ast.walk(tree):
        if isinstance(n, (ast.FunctionDef, ast.AsyncFunctionDef)):
            for sub in own_nodes(n):
                if sub is node:
                    best = n
    return best


def replace_stmt(tree, old, new_list):
    for n in ast.walk(tree):
        for field in ('body', 'orelse', 'finalbody'):
            lst = getattr(n, field, None)
            if isinstance(lst, list) and old in lst:
                k = lst.index(old)
                lst[k:k + 1] = new_list
                return True
        if isinstance(n, ast.Try):
            for h in n.handlers:
                if old in h.body:
                    k = h.body.index(old)
                    h.body[k:k + 1] = new_list
                    return True
    return False


SWAP = {ast.Lt: ast.Gt, ast.Gt: ast.Lt, ast.LtE: ast.GtE, ast.GtE: ast.LtE, ast.Eq: ast.Eq, ast.NotEq: ast.NotEq}


def apply_site(kind, tree, loc):
    """returns a description or None if the site turned out inapplicable"""
    nodes = preorder(tree)
    if kind == 'unparse':
        return 'file re-emitted'
    if kind == 'rename':
        i, name = loc
        fn = nodes[i]
        new = '_pv_' + name
        for n in ast.walk(fn):
            if isinstance(n, ast.Name) and n.id == name:
                n.id = new
        return 'local %s of %s renamed' % (name, fn.name)
    if kind == 'passpad':
        fn = nodes[loc]
        k = 1 if (fn.body and isinstance(fn.body[0], ast.Expr) and isinstance(getattr(fn.body[0], 'value', None), ast.Constant)
                  and isinstance(fn.body[0].value.value, str)) else 0
        fn.body.insert(k, ast.Pass())
        return 'pass inserted in %s' % fn.name
    n = nodes[loc]
    if kind == 'temp':
        if in_class_or_module_body(tree, n) or enclosing_function(tree, n) is None:
            return None
        t = '_pv_t'
        a1 = ast.Assign(targets=[ast.Name(id=t, ctx=ast.Store())], value=n.value, lineno=0)
        a2 = ast.Assign(targets=n.targets, value=ast.Name(id=t, ctx=ast.Load()), lineno=0)
        return 'temp before %s' % ast.unparse(n.targets[0]) if replace_stmt(tree, n, [a1, a2]) else None
    if kind == 'rettemp':
        if enclosing_function(tree, n) is None:
            return None
        t = '_pv_r'
        a1 = ast.Assign(targets=[ast.Name(id=t, ctx=ast.Store())], value=n.value, lineno=0)
        r = ast.Return(value=ast.Name(id=t, ctx=ast.Load()))
        return 'return via temp' if replace_stmt(tree, n, [a1, r]) else None
    if kind == 'ifflip':
        body, orelse = n.body, n.orelse or [ast.Pass()]
        n.test = ast.UnaryOp(op=ast.Not(), operand=n.test)
        n.body, n.orelse = orelse, body
        return 'if flipped'
    if kind == 'demorgan':
        b = n.test
        other = ast.Or() if isinstance(b.op, ast.And) else ast.And()
        n.test = ast.UnaryOp(op=ast.Not(), operand=ast.BoolOp(op=other, values=[ast.UnaryOp(op=ast.Not(), operand=v) for v in b.values]))
        return 'de morgan on if test'
    if kind == 'constmul':
        n.left, n.right = n.right, n.left
        return 'constant factor moved right'
    if kind == 'cmpswap':
        l, r = n.left, n.comparators[0]
        n.left, n.comparators, n.ops = r, [l], [SWAP[type(n.ops[0])]()]
        return 'comparison operands swapped'
    if kind == 'kwreorder':
        n.keywords = list(reversed(n.keywords))
        return 'keywords reversed'
    return None


def one_variant(args):
    idx, (kind, path, loc), run_tests, keep = args
    src = open(path).read()
    tree = ast.parse(src)
    desc = apply_site(kind, tree, loc)
    if desc is None:
        return idx, kind, path, 'inapplicable', [], [], ''
    ast.fix_missing_locations(tree)
    new_src = ast.unparse(tree) + '\n'
    try:
        compile(new_src, path, 'exec')
    except SyntaxError as e:
        return idx, kind, path, 'INVALID syntax %s' % e, [], [], desc
    tmp = tempfile.mkdtemp(prefix='tf.', dir='/var/tmp')
    try:
        if run_tests:
            shutil.copytree('/repo', os.path.join(tmp, 'tree'), ignore=shutil.ignore_patterns(
                '.git', '__pycache__', 'build', '*.egg-info', 'docs', 'tutorial', 'img', 'data'))
            root = os.path.join(tmp, 'tree')
        else:
            shutil.copytree(PKG, os.path.join(tmp, 'pyPRISM'), ignore=shutil.ignore_patterns('__pycache__', '*.so', '*.c'))
            root = tmp
        rel = os.path.relpath(path, '/repo')
        open(os.path.join(root, rel), 'w').write(new_src)
        status = 'ok'
        if run_tests:
            p = subprocess.run(['/venv/bin/python', '-m', 'pytest', '-q', '-x', '-p', 'no:cacheprovider', '--timeout=900'],
                               cwd=root, capture_output=True, text=True)
            if p.returncode != 0:
                status = 'INVALID tests ' + p.stdout[-300:].replace('\n', ' | ')
        checks = seed_eval.run_checks(root, seed_eval.all_props(), jobs=4)
        alarms = [(pid, lines) for pid, rc, lines in checks if rc == 1]
        und = [(pid, lines) for pid, rc, lines in checks if rc == 2]
        if keep and (alarms or und) and status == 'ok':
            d = os.path.join(keep, '%s-%d' % (kind, idx))
            os.makedirs(d, exist_ok=True)
            p = subprocess.run(['diff', '-u', '--label', 'a/' + rel, '--label', 'b/' + rel, path, os.path.join(root, rel)],
                               capture_output=True, text=True)
            open(os.path.join(d, 'patch.diff'), 'w').write(p.stdout)
            open(os.path.join(d, 'why.txt'), 'w').write('%s: %s (%s)\n' % (kind, desc, rel))
        return idx, kind, path, status, alarms, und, desc
    finally:
        shutil.rmtree(tmp, ignore_errors=True)


def main():
    ap = argparse.ArgumentParser()
    ap.add_argument('--n', type=int, default=40)
    ap.add_argument('--seed', type=int, default=1)
    ap.add_argument('--tests', action='store_true')
    ap.add_argument('--keep')
    ap.add_argument('--only')
    ap.add_argument('--jobs', type=int, default=5)
    a = ap.parse_args()
    sites = []
    for f in files():
        sites += enumerate_sites(f, ast.parse(open(f).read()))
    if a.only:
        ks = set(a.only.split(','))
        sites = [s for s in sites if s[0] in ks]
    by_kind = {}
    for s in sites:
        by_kind.setdefault(s[0], []).append(s)
    print('sites:', {k: len(v) for k, v in sorted(by_kind.items())})
    rng = random.Random(a.seed)
    # stratified: same number per kind
    chosen = []
    kinds = sorted(by_kind)
    per = max(1, a.n // len(kinds))
    for k in kinds:
        pool = by_kind[k][:]
        rng.shuffle(pool)
        chosen += pool[:per]
    chosen = chosen[:max(a.n, len(kinds))]
    bad = 0
    with ThreadPoolExecutor(a.jobs) as ex:
        for idx, kind, path, status, alarms, und, desc in ex.map(one_variant, [(i, s, a.tests, a.keep) for i, s in enumerate(chosen)]):
            rel = os.path.relpath(path, '/repo')
            tag = 'silent'
            if status.startswith('INVALID'):
                tag = status
            elif status == 'inapplicable':
                tag = 'inapplicable'
            elif alarms:
                tag = 'FALSE-ALARM ' + ','.join(p for p, _ in alarms)
                bad += 1
            elif und:
                tag = 'undecided ' + ','.join(p for p, _ in und)
                bad += 1
            print('%3d %-9s %-40s %-40s %s' % (idx, kind, rel[-40:], desc[:40], tag))
            if alarms or und:
                seen = set()
                for pid, lines in alarms + und:
                    for l in lines[:3]:
                        if not l.startswith('VIOLATION property') and l[14:150] not in seen:
                            print('        ', pid, l[:300])
                            seen.add(l[14:150])
    print('%d variants, %d with alarm/undecided' % (len(chosen), bad))
    return 1 if bad else 0


if __name__ == '__main__':
    sys.exit(main())
