#!/venv/bin/python
"""Rewrite the seeded-change table of DESIGN.md (between the SEEDED-TABLE markers) from /verif/seeded/*/meta.json."""
import json, os, re
VERIF = os.path.dirname(os.path.dirname(os.path.abspath(__file__)))
rows = []
root = os.path.join(VERIF, 'seeded')
for n in sorted(os.listdir(root)):
    mp = os.path.join(root, n, 'meta.json')
    if not os.path.exists(mp):
        continue
    m = json.load(open(mp))
    rules = sorted({r.split()[0] for r in m.get('rules_fired', [])})
    own = m['property'] in m.get('caught_by', [])
    rows.append('| `%s` | %s | %s | %s | %s | %s |' % (
        n, m['property'], (m.get('summary') or '').replace('|', '/')[:150],
        (m.get('needs_to_manifest') or '').replace('|', '/')[:110],
        ', '.join(m.get('caught_by', [])) or '**missed**' + (' (undecided: %s)' % ','.join(m['undecided_by']) if m.get('undecided_by') else ''),
        ', '.join(rules)))
tbl = ['| seeded change | property | what was changed | needs to manifest | caught by | rules |', '|---|---|---|---|---|---|'] + rows
tbl.append('')
tbl.append('%d changes kept; %d detected by the check of the property they were written against, %d by at least one check.'
           % (len(rows), sum(1 for n in os.listdir(root) if os.path.exists(os.path.join(root, n, 'meta.json')) and
                             (lambda m: m['property'] in m.get('caught_by', []))(json.load(open(os.path.join(root, n, 'meta.json'))))),
              sum(1 for n in os.listdir(root) if os.path.exists(os.path.join(root, n, 'meta.json')) and
                  json.load(open(os.path.join(root, n, 'meta.json'))).get('caught_by'))))
p = os.path.join(VERIF, 'DESIGN.md')
s = open(p).read()
s = re.sub(r'<!-- SEEDED-TABLE-BEGIN -->.*?<!-- SEEDED-TABLE-END -->',
           lambda _: '<!-- SEEDED-TABLE-BEGIN -->\n' + '\n'.join(tbl) + '\n<!-- SEEDED-TABLE-END -->', s, flags=re.S)
open(p, 'w').write(s)
print('table with %d rows written' % len(rows))
