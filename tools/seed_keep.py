#!/venv/bin/python
"""Keep a confirmed seeded change: seed_keep.py SRC_DIR NAME [--props C01,C06]
Re-runs tools/seed_eval.py (clean demo passes, patch applies, 59 tests pass, demo fails, which checks fire) and
writes /verif/seeded/NAME/{patch.diff,demo.py,meta.json}.  Refuses a change that is not valid."""
import argparse, json, os, shutil, sys
HERE = os.path.dirname(os.path.abspath(__file__))
sys.path.insert(0, HERE)
import seed_eval

ap = argparse.ArgumentParser()
ap.add_argument('src'); ap.add_argument('name'); ap.add_argument('--note', default='')
a = ap.parse_args()
res = seed_eval.evaluate(os.path.abspath(a.src))
if not res.get('valid'):
    print('NOT VALID', json.dumps({k: v for k, v in res.items() if k != 'checks'}, indent=1)[:3000]); sys.exit(1)
src_meta = json.load(open(os.path.join(a.src, 'meta.json')))
dst = os.path.join(os.path.dirname(HERE), 'seeded', a.name)
os.makedirs(dst, exist_ok=True)
shutil.copy(os.path.join(a.src, 'patch.diff'), dst)
shutil.copy(os.path.join(a.src, 'demo.py'), dst)
meta = {
    'id': a.name,
    'property': src_meta.get('property'),
    'summary': src_meta.get('summary'),
    'needs_to_manifest': src_meta.get('needs'),
    'files': src_meta.get('files'),
    'why_tests_pass': src_meta.get('why_tests_pass'),
    'origin': 'independent sub-agent given only the property text and a scratch worktree',
    'confirmed': {
        'what_i_ran': 'tools/seed_eval.py on a scratch copy of /repo under /var/tmp: demo.py on the clean copy, git apply, '
                      'the baseline pytest command, demo.py on the patched copy, every registered check with --repo <copy>',
        'demo_clean_rc': res['demo_clean_rc'], 'tests_passed': res.get('tests_passed'), 'tests_rc': res.get('tests_rc'),
        'demo_patched_rc': res['demo_patched_rc'],
    },
    'caught_by': res['caught_by'],
    'undecided_by': res['undecided_by'],
    'rules_fired': sorted({l.split()[1] + ' ' + l.split()[2] for c in res['checks'].values() for l in c['lines']
                           if l.startswith('VIOLATION ') and not l.startswith('VIOLATION property')}),
    'note': a.note,
}
json.dump(meta, open(os.path.join(dst, 'meta.json'), 'w'), indent=1)
print(a.name, 'caught_by', res['caught_by'], 'undecided_by', res['undecided_by'])
