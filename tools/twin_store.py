#!/venv/bin/python
"""twin_store.py AREA SRC_DIR: copy SRC_DIR/K/{patch.diff,why.txt} to /verif/twins/AREA-K/ with a meta.json"""
import glob, json, os, re, shutil, sys
area, src = sys.argv[1], sys.argv[2]
n = 0
for d in sorted(glob.glob(src + '/[0-9]*'), key=lambda x: int(os.path.basename(x))):
    if not os.path.exists(d + '/patch.diff'):
        continue
    k = os.path.basename(d)
    dst = '/verif/twins/%s-%s' % (area, k)
    os.makedirs(dst, exist_ok=True)
    shutil.copy(d + '/patch.diff', dst)
    why = open(d + '/why.txt').read() if os.path.exists(d + '/why.txt') else ''
    open(dst + '/why.txt', 'w').write(why)
    files = sorted(set(re.findall(r'^\+\+\+ b/(\S+)', open(d + '/patch.diff').read(), re.M)))
    json.dump({'id': '%s-%s' % (area, k),
               'origin': 'independent sub-agent asked for strictly behaviour-preserving refactorings (saw no part of /verif); verified '
                         'by it against the 59 tests and a before/after comparison harness',
               'why_behaviour_preserving': why.strip(), 'files': files, 'undecided_ok': []}, open(dst + '/meta.json', 'w'), indent=1)
    n += 1
print('%d stored; %d twins in total' % (n, len(os.listdir('/verif/twins'))))
