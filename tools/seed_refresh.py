#!/venv/bin/python
"""Re-run every registered check against every kept seeded change and refresh caught_by / undecided_by / rules_fired
in its meta.json (the demonstration and the test-suite run are not repeated: they were confirmed when it was kept)."""
import json, os, sys, shutil, subprocess, tempfile
from concurrent.futures import ThreadPoolExecutor
HERE = os.path.dirname(os.path.abspath(__file__))
VERIF = os.path.dirname(HERE)
sys.path.insert(0, HERE)
import seed_eval


def one(name):
    d = os.path.join(VERIF, 'seeded', name)
    tmp = tempfile.mkdtemp(prefix='sr.', dir='/var/tmp')
    try:
        shutil.copytree('/repo/pyPRISM', os.path.join(tmp, 'pyPRISM'), ignore=shutil.ignore_patterns('__pycache__', '*.so', '*.c'))
        p = subprocess.run(['git', 'apply', '--whitespace=nowarn', os.path.join(d, 'patch.diff')], cwd=tmp, capture_output=True, text=True)
        if p.returncode:
            return name, None
        checks = seed_eval.run_checks(tmp, seed_eval.all_props(), jobs=4)
        meta = json.load(open(os.path.join(d, 'meta.json')))
        meta['caught_by'] = [pid for pid, rc, _ in checks if rc == 1]
        meta['undecided_by'] = [pid for pid, rc, _ in checks if rc == 2]
        meta['rules_fired'] = sorted({l.split()[1] + ' ' + l.split()[2] for _, _, lines in checks for l in lines
                                      if l.startswith('VIOLATION ') and not l.startswith('VIOLATION property')})
        json.dump(meta, open(os.path.join(d, 'meta.json'), 'w'), indent=1)
        return name, meta
    finally:
        shutil.rmtree(tmp, ignore_errors=True)


names = sorted(n for n in os.listdir(os.path.join(VERIF, 'seeded')) if os.path.exists(os.path.join(VERIF, 'seeded', n, 'meta.json')))
with ThreadPoolExecutor(6) as ex:
    for name, meta in ex.map(one, names):
        if meta is None:
            print('%-36s PATCH DOES NOT APPLY' % name)
        else:
            own = meta['property'] in meta['caught_by']
            print('%-36s %s own=%s caught_by=%s undecided=%s' % (name, 'ok  ' if meta['caught_by'] else 'MISS', own, ','.join(meta['caught_by']), ','.join(meta['undecided_by'])))
