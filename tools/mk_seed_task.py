#!/venv/bin/python
"""Prepare a scratch worktree + TASK.md for an independent sub-agent that seeds a property-breaking change.
usage: mk_seed_task.py <tag> <n> C01 C03 ...   (worktree /tmp/wt/<id><tag>, output /tmp/seedout/<id><tag>)
The task text contains the property record only - nothing from /verif."""
import json, os, subprocess, sys
props = {}
for l in open('/verif/properties.jsonl'):
    p = json.loads(l); props[p['id']] = p
TEMPLATE = '''# Task: seed a realistic regression into a scratch copy of pyPRISM

You are working in a scratch git worktree of the open-source project usnistgov/pyPRISM
(a Python framework that numerically solves polymer reference interaction site model (PRISM)
integral equations) located at:

    @WT@

Work ONLY inside that directory (and your output directory below). Do NOT read or touch `/repo`,
`/verif`, or any other checkout; do not look for any verification tooling. Do not commit anything.

## The property

The following semantic property is supposed to hold for pyPRISM (it holds in the worktree as given):

**@TITLE@**

Statement: @STATEMENT@

Quantifier (over what it must hold): @QUANT@

Why ordinary unit tests cannot settle it: @WHY@

Code anchors: @ANCH@

## What to produce

Produce **@N@ different, independent changes** to the pyPRISM *library source* (files under
`pyPRISM/` but NOT under `pyPRISM/test/`), each of which:

1. BREAKS the property above (some user-visible behaviour the statement promises no longer holds),
2. still imports/compiles, and still PASSES the complete existing test suite, run exactly as
   `cd @WT@ && /venv/bin/python -m pytest -q -p no:cacheprovider --timeout=900` (59 tests; must all pass),
3. looks like a plausible change a maintainer could make by mistake (a refactor, an "optimisation",
   a "clean-up", a caching shortcut, a changed default, a mis-typed index/sign/factor, a moved
   statement...), not deliberate sabotage with dead giveaways, and is small (a few lines),
4. needs **something specific to manifest** - NOT something ordinary use would expose at once.
   Prefer: a multi-step sequence of operations (a particular call history or re-assignment order),
   an unusual-but-valid input (a particular parameter regime, rank >= 3, list keys, off-grid value,
   a flag combination), two cooperating sites that each look fine alone, state that goes stale
   only after a certain mutation, aliasing that only shows when the caller later mutates something.
   The @N@ changes should exercise DIFFERENT mechanisms / different code sites from each other.
@EXTRA@
Each change is made against the clean worktree state (i.e. they are alternatives, not cumulative):
make change 1, verify, save its diff, then `git -C @WT@ checkout -- .` and make change 2, etc.

For each change K = 1..@N@ write into the output directory `@OUT@/K/`:

* `patch.diff`  - output of `git -C @WT@ diff` for that change alone (must apply with `git apply` to a clean tree),
* `demo.py`     - a small self-contained program, run as `cd <tree> && /venv/bin/python @OUT@/K/demo.py`
                  (it must import pyPRISM from the current working directory: start it with
                  `import sys, os; sys.path.insert(0, os.getcwd())`), that **exits 0 on the clean
                  tree and exits non-zero (assert failure) on the changed tree**, demonstrating the broken
                  property. It must be deterministic and finish in under 2 minutes.
* `meta.json`   - {"property": "@PID@", "summary": "<one sentence: what was changed>",
                  "needs": "<what specific input / sequence / interleaving is needed for it to manifest>",
                  "files": ["<changed files>"], "why_tests_pass": "<one sentence>"}

Verify everything yourself before finishing: for each change, (a) the full test suite passes with the
change applied, (b) demo.py fails with the change, (c) demo.py passes on the clean tree.
Python to use: `/venv/bin/python` (numpy, scipy, pint, pytest installed; there is no network).
Note pyPRISM is not installed as a package: it is imported from the current directory.

Never use `git stash` (the stash is shared between all worktrees of this repository and other engineers work in
sibling worktrees): to set a change aside use `git diff > file; git checkout -- .` and `git apply file`.
Leave the worktree CLEAN (`git -C @WT@ checkout -- .`, no stray files) when you are done.
Your final message: for each change, one short paragraph (what, where, what it needs to manifest,
confirmation of a/b/c).
'''
def mk(pid, tag, n, extra=''):
    p = props[pid]
    wt = '/tmp/wt/%s%s' % (pid, tag)
    out = '/tmp/seedout/%s%s' % (pid, tag)
    os.makedirs(out, exist_ok=True)
    os.makedirs('/tmp/wt', exist_ok=True)
    if not os.path.exists(wt):
        subprocess.check_call(['git', '-C', '/repo', 'worktree', 'add', '--detach', wt, 'HEAD'],
                              stdout=subprocess.DEVNULL, stderr=subprocess.DEVNULL)
    a = p['anchors']
    anch = 'files: %s; mechanisms: %s' % (', '.join(a['files']),
                                          '; '.join('%s [%s]' % (m['name'], m['where']) for m in a.get('mechanism', [])))
    txt = TEMPLATE
    for k, v in [('@WT@', wt), ('@OUT@', out), ('@TITLE@', p['title']), ('@STATEMENT@', p['statement']),
                 ('@QUANT@', p['quantifier']['text'] if isinstance(p['quantifier'], dict) else str(p['quantifier'])), ('@WHY@', p['why_tests_cant']), ('@ANCH@', anch), ('@N@', str(n)),
                 ('@PID@', pid), ('@EXTRA@', extra)]:
        txt = txt.replace(k, v)
    os.makedirs('/tmp/seedtask/%s%s' % (pid, tag), exist_ok=True)
    open('/tmp/seedtask/%s%s/TASK.md' % (pid, tag), 'w').write(txt)
    return '/tmp/seedtask/%s%s/TASK.md' % (pid, tag)
if __name__ == '__main__':
    tag, n = sys.argv[1], int(sys.argv[2])
    extra = os.environ.get('SEED_EXTRA', '')
    for pid in sys.argv[3:]:
        print(mk(pid, tag, n, extra))
