#!/venv/bin/python
"""Evaluate a candidate seeded change (directory with patch.diff, demo.py, meta.json).

Steps (all on a scratch copy of /repo's working tree under /var/tmp, removed afterwards):
  1. demo.py on the clean copy                 -> must exit 0
  2. apply patch.diff                          -> must apply
  3. baseline test suite on the patched copy   -> must give 59 passed   (skipped with --no-tests)
  4. demo.py on the patched copy               -> must exit non-zero
  5. every registered check (or --props) with --repo <patched copy> --no-evidence; report exit codes and
     the VIOLATION / UNDECIDED obligation lines.
usage: seed_eval.py DIR [--props C01,C06] [--no-tests] [--json OUT]
"""
import argparse
import json
import os
import re
import shutil
import subprocess
import sys
import tempfile
from concurrent.futures import ThreadPoolExecutor

VERIF = os.path.dirname(os.path.dirname(os.path.abspath(__file__)))
PY = '/venv/bin/python'


def sh(cmd, cwd=None, timeout=1800):
    p = subprocess.run(cmd, cwd=cwd, capture_output=True, text=True, timeout=timeout)
    return p.returncode, p.stdout, p.stderr


def all_props():
    man = json.load(open(os.path.join(VERIF, 'MANIFEST.json')))
    return [c['property_id'] for c in man['checks']]


def run_checks(tree, props, jobs=16):
    def one(pid):
        rc, out, err = sh([PY, os.path.join(VERIF, 'check'), pid, '--repo', tree, '--no-evidence'], timeout=900)
        lines = [l for l in out.splitlines() if l.startswith(('VIOLATION ', 'UNDECIDED', 'ANALYSIS-'))]
        return pid, rc, lines
    with ThreadPoolExecutor(jobs) as ex:
        return list(ex.map(one, props))


def evaluate(d, props=None, tests=True, repo='/repo'):
    res = {'dir': d}
    tmp = tempfile.mkdtemp(prefix='se.', dir='/var/tmp')
    tree = os.path.join(tmp, 'tree')
    try:
        shutil.copytree(repo, tree, ignore=shutil.ignore_patterns('.git', '__pycache__', 'build', '*.egg-info', 'docs', 'tutorial', 'img', 'data'))
        demo = os.path.join(d, 'demo.py')
        rc, out, err = sh([PY, demo], cwd=tree, timeout=600)
        res['demo_clean_rc'] = rc
        if rc != 0:
            res['demo_clean_tail'] = (out + err)[-800:]
        rc, out, err = sh(['git', 'apply', '--whitespace=nowarn', os.path.join(d, 'patch.diff')], cwd=tree)
        res['apply_rc'] = rc
        if rc != 0:
            res['apply_err'] = err[-500:]
            return res
        if tests:
            # sequential on purpose: FromFile tests share a scratch file in the cwd and race under xdist
            rc, out, err = sh([PY, '-m', 'pytest', '-q', '-p', 'no:cacheprovider', '--timeout=900'], cwd=tree)
            m = re.search(r'(\d+) passed', out)
            res['tests_rc'] = rc
            res['tests_passed'] = int(m.group(1)) if m else 0
            if rc != 0:
                res['tests_tail'] = out[-1200:]
        rc, out, err = sh([PY, demo], cwd=tree, timeout=600)
        res['demo_patched_rc'] = rc
        res['demo_patched_tail'] = (out + err)[-600:]
        checks = run_checks(tree, props or all_props())
        res['checks'] = {pid: {'rc': rc, 'lines': lines[:12]} for pid, rc, lines in checks}
        res['caught_by'] = [pid for pid, rc, _ in checks if rc == 1]
        res['undecided_by'] = [pid for pid, rc, _ in checks if rc == 2]
        res['valid'] = (res['demo_clean_rc'] == 0 and res['demo_patched_rc'] != 0 and
                        (not tests or (res.get('tests_rc') == 0 and res.get('tests_passed') == 59)))
        return res
    finally:
        shutil.rmtree(tmp, ignore_errors=True)


def main():
    ap = argparse.ArgumentParser()
    ap.add_argument('dir')
    ap.add_argument('--props')
    ap.add_argument('--no-tests', action='store_true')
    ap.add_argument('--json')
    a = ap.parse_args()
    res = evaluate(os.path.abspath(a.dir), a.props.split(',') if a.props else None, tests=not a.no_tests)
    if a.json:
        json.dump(res, open(a.json, 'w'), indent=1)
    brief = {k: v for k, v in res.items() if k != 'checks'}
    print(json.dumps(brief, indent=1))
    for pid, c in sorted(res.get('checks', {}).items()):
        if c['rc'] != 0:
            print('== %s exit %d' % (pid, c['rc']))
            for l in c['lines']:
                print('   ' + l[:400])
    return 0


if __name__ == '__main__':
    sys.exit(main())
