#!/venv/bin/python
"""mutant_fuzz.py [--n N] [--seed S] [--jobs J] [--only KIND,...] [--files SUBSTR,...]

Mechanical *gap* sweep for the checkers (the counterpart of twin_fuzz.py): applies ONE classic mutation operator at a
random site of the property-anchored modules of /repo/pyPRISM (scratch copy under /var/tmp, removed afterwards) and runs
every registered check.  A mutant that no check reports (all exit 0) is then run against the repository's own test suite:

    detected            some check exits 1            (the usual case)
    undecided           no check exits 1, some exit 2 (the analysis refuses to certify the mutant)
    SURVIVES-BOTH       every check exits 0 and the 59 tests pass  -> an equivalent mutant or a gap: triage by hand
    tests-only          every check exits 0 but a test fails       -> outside what the properties claim, or a gap

Operators: ror (< <= > >= == != swapped with their neighbour), aor (+ - and * / swapped), const (numeric literal changed),
negif (if c -> if not c), isnone (is None <-> is not None), stmtdel (a simple statement replaced by pass), argswap (first
two positional arguments of a call swapped).
"""
import argparse
import ast
import os
import random
import shutil
import subprocess
import sys
import tempfile
from concurrent.futures import ThreadPoolExecutor

HERE = os.path.dirname(os.path.abspath(__file__))
sys.path.insert(0, HERE)
import seed_eval  # noqa: E402

PKG = '/repo/pyPRISM'
INCLUDE = ('core/', 'closure/', 'potential/', 'omega/', 'calculate/', 'util/UnitConverter.py')
SKIP_FUNCS = ('__repr__', '__str__')


def files():
    out = []
    for root, dirs, fs in os.walk(PKG):
        dirs[:] = [d for d in dirs if d not in ('test', '__pycache__', 'trajectory')]
        for f in fs:
            p = os.path.join(root, f)
            rel = os.path.relpath(p, PKG)
            if f.endswith('.py') and any(rel.startswith(i) or rel == i for i in INCLUDE) and f != '__init__.py':
                out.append(p)
    return sorted(out)


ROR = {ast.Lt: ast.LtE, ast.LtE: ast.Lt, ast.Gt: ast.GtE, ast.GtE: ast.Gt, ast.Eq: ast.NotEq, ast.NotEq: ast.Eq}
AOR = {ast.Add: ast.Sub, ast.Sub: ast.Add, ast.Mult: ast.Div, ast.Div: ast.Mult}


def in_skipped(tree, node):
    for fn in ast.walk(tree):
        if isinstance(fn, ast.FunctionDef) and fn.name in SKIP_FUNCS:
            if any(n is node for n in ast.walk(fn)):
                return True
    return False


def docstring_nodes(tree):
    out = set()
    for n in ast.walk(tree):
        if isinstance(n, (ast.Module, ast.ClassDef, ast.FunctionDef)) and n.body and isinstance(n.body[0], ast.Expr) and \
                isinstance(n.body[0].value, ast.Constant) and isinstance(n.body[0].value.value, str):
            out.add(id(n.body[0]))
            out.add(id(n.body[0].value))
    return out


def enumerate_sites(path, tree):
    sites = []
    nodes = list(ast.walk(tree))
    docs = docstring_nodes(tree)
    msg_nodes = set()
    for n in nodes:        # constants inside raise / warnings.warn / assert messages are text, not behaviour
        if isinstance(n, ast.Raise) or (isinstance(n, ast.Call) and ast.unparse(n.func).endswith('warn')):
            for x in ast.walk(n):
                msg_nodes.add(id(x))
        if isinstance(n, ast.Assert) and n.msg is not None:
            for x in ast.walk(n.msg):
                msg_nodes.add(id(x))
    for i, n in enumerate(nodes):
        if id(n) in docs or id(n) in msg_nodes:
            continue
        if isinstance(n, ast.Compare) and len(n.ops) == 1 and type(n.ops[0]) in ROR:
            sites.append(('ror', path, i))
        if isinstance(n, ast.Compare) and len(n.ops) == 1 and isinstance(n.ops[0], (ast.Is, ast.IsNot)) and \
                isinstance(n.comparators[0], ast.Constant) and n.comparators[0].value is None:
            sites.append(('isnone', path, i))
        if isinstance(n, ast.BinOp) and type(n.op) in AOR and not (isinstance(n.left, ast.Constant) and isinstance(n.left.value, str)):
            sites.append(('aor', path, i))
        if isinstance(n, ast.Constant) and isinstance(n.value, (int, float)) and not isinstance(n.value, bool):
            sites.append(('const', path, i))
        if isinstance(n, ast.If):
            sites.append(('negif', path, i))
        if isinstance(n, (ast.Assign, ast.AugAssign)) or (isinstance(n, ast.Expr) and isinstance(n.value, ast.Call)):
            sites.append(('stmtdel', path, i))
        if isinstance(n, ast.Call) and len(n.args) >= 2 and not any(isinstance(a, ast.Starred) for a in n.args[:2]):
            sites.append(('argswap', path, i))
    return sites


def replace_stmt(tree, old, new):
    for n in ast.walk(tree):
        for field in ('body', 'orelse', 'finalbody'):
            lst = getattr(n, field, None)
            if isinstance(lst, list) and old in lst:
                lst[lst.index(old)] = new
                return True
        if isinstance(n, ast.Try):
            for h in n.handlers:
                if old in h.body:
                    h.body[h.body.index(old)] = new
                    return True
    return False


def apply_site(kind, tree, loc):
    nodes = list(ast.walk(tree))
    n = nodes[loc]
    if in_skipped(tree, n):
        return None
    before = ast.unparse(n)[:70]
    if kind == 'ror':
        n.ops = [ROR[type(n.ops[0])]()]
    elif kind == 'isnone':
        n.ops = [ast.IsNot() if isinstance(n.ops[0], ast.Is) else ast.Is()]
    elif kind == 'aor':
        n.op = AOR[type(n.op)]()
    elif kind == 'const':
        v = n.value
        n.value = (v + 1) if isinstance(v, int) else (v * 2.0 if v != 0 else 1.0)
    elif kind == 'negif':
        n.test = ast.UnaryOp(op=ast.Not(), operand=n.test)
    elif kind == 'stmtdel':
        if not replace_stmt(tree, n, ast.Pass()):
            return None
        return 'line %d: deleted `%s`' % (getattr(n, 'lineno', 0), before)
    elif kind == 'argswap':
        n.args[0], n.args[1] = n.args[1], n.args[0]
    else:
        return None
    return 'line %d: `%s` -> `%s`' % (getattr(n, 'lineno', 0), before, ast.unparse(n)[:70])


def one(args):
    idx, (kind, path, loc), keep = args
    src = open(path).read()
    tree = ast.parse(src)
    desc = apply_site(kind, tree, loc)
    rel = os.path.relpath(path, '/repo')
    if desc is None:
        return idx, kind, rel, None, 'inapplicable', []
    ast.fix_missing_locations(tree)
    new_src = ast.unparse(tree) + '\n'
    try:
        compile(new_src, path, 'exec')
    except SyntaxError:
        return idx, kind, rel, desc, 'inapplicable', []
    tmp = tempfile.mkdtemp(prefix='mf.', dir='/var/tmp')
    try:
        root = os.path.join(tmp, 'tree')
        shutil.copytree('/repo', root, ignore=shutil.ignore_patterns('.git', '__pycache__', 'build', '*.egg-info', 'docs', 'tutorial',
                                                                     'img', 'data'))
        open(os.path.join(root, rel), 'w').write(new_src)
        checks = seed_eval.run_checks(root, seed_eval.all_props(), jobs=4)
        hit = [pid for pid, rc, _ in checks if rc == 1]
        und = [pid for pid, rc, _ in checks if rc == 2]
        if hit:
            return idx, kind, rel, desc, 'detected', hit
        if und:
            why = [l for pid, rc, lines in checks if rc == 2 for l in lines if l.startswith('UNDECIDED')][:1]
            return idx, kind, rel, (desc or '') + ('  || ' + why[0][14:230] if why else ''), 'undecided', und
        p = subprocess.run(['/venv/bin/python', '-m', 'pytest', '-q', '-x', '-p', 'no:cacheprovider', '--timeout=900'],
                           cwd=root, capture_output=True, text=True)
        status = 'SURVIVES-BOTH' if p.returncode == 0 else 'tests-only'
        if keep and status == 'SURVIVES-BOTH':
            d = os.path.join(keep, '%s-%d' % (kind, idx))
            os.makedirs(d, exist_ok=True)
            q = subprocess.run(['diff', '-u', '--label', 'a/' + rel, '--label', 'b/' + rel, path, os.path.join(root, rel)],
                               capture_output=True, text=True)
            open(os.path.join(d, 'patch.diff'), 'w').write(q.stdout)
            open(os.path.join(d, 'why.txt'), 'w').write('%s %s: %s\n' % (kind, rel, desc))
        return idx, kind, rel, desc, status, []
    finally:
        shutil.rmtree(tmp, ignore_errors=True)


def main():
    ap = argparse.ArgumentParser()
    ap.add_argument('--n', type=int, default=60)
    ap.add_argument('--seed', type=int, default=1)
    ap.add_argument('--jobs', type=int, default=5)
    ap.add_argument('--only')
    ap.add_argument('--files')
    ap.add_argument('--keep')
    a = ap.parse_args()
    sites = []
    for f in files():
        if a.files and not any(x in f for x in a.files.split(',')):
            continue
        sites += enumerate_sites(f, ast.parse(open(f).read()))
    if a.only:
        ks = set(a.only.split(','))
        sites = [s for s in sites if s[0] in ks]
    by = {}
    for s in sites:
        by.setdefault(s[0], []).append(s)
    print('sites:', {k: len(v) for k, v in sorted(by.items())}, flush=True)
    rng = random.Random(a.seed)
    chosen = []
    per = max(1, a.n // len(by))
    for k in sorted(by):
        pool = by[k][:]
        rng.shuffle(pool)
        chosen += pool[:per]
    tally = {}
    with ThreadPoolExecutor(a.jobs) as ex:
        for idx, kind, rel, desc, status, who in ex.map(one, [(i, s, a.keep) for i, s in enumerate(chosen)]):
            tally[status] = tally.get(status, 0) + 1
            print('%3d %-8s %-44s %-14s %s  %s' % (idx, kind, rel[-44:], status, ','.join(who), desc or ''), flush=True)
    print('tally:', tally, flush=True)
    return 0


if __name__ == '__main__':
    sys.exit(main())
