#!/venv/bin/python
"""Regenerate MANIFEST.json from the property registry (pv/props.py) and tools/manifest_meta.json."""
import json
import os
import sys
HERE = os.path.dirname(os.path.dirname(os.path.abspath(__file__)))
sys.path.insert(0, HERE)
sys.dont_write_bytecode = True
from pv import props

meta = json.load(open(os.path.join(HERE, 'tools', 'manifest_meta.json')))
ALL = ['C%02d' % i for i in range(1, 19)]
checks = []
for pid in ALL:
    if pid not in props.PROPS or pid in meta.get('hold_back', []):
        continue
    m = meta['checks'].get(pid, {})
    p = props.PROPS[pid]
    checks.append({
        'property_id': pid,
        'quick_cmd': '/venv/bin/python /verif/check %s --tier quick' % pid,
        'thorough_cmd': '/venv/bin/python /verif/check %s --tier thorough' % pid,
        'evidence_file': '/verif/evidence/%s.json' % pid,
        'replay_cmd_template': '/venv/bin/python /verif/check --replay {path}',
        'engine': 'pv',
        'level_claimed': {
            'category': 'other',
            'text': m.get('level_text', 'Static analysis: the structural clauses named in DESIGN.md are decided exactly from the '
                          'source on every run (sound for those clauses, for all inputs/histories at once); the numerical '
                          'behaviour that follows from them only together with the trusted base is not claimed.'),
            'design_ref': m.get('design_ref', 'DESIGN.md section 4, ' + pid),
        },
        'level_note': 'Decided: ' + p['explanation'] + ' NOT decided: ' + p['not_decided'] +
                      ' Trusted base: ' + ', '.join(p['trusted']) + ' (DESIGN.md 1.4).',
        'technique': m.get('technique', 'static analysis: abstract interpretation over canonical terms + AST/dataflow rules'),
    })
na = []
for pid in ALL:
    if pid not in [c['property_id'] for c in checks]:
        na.append({'property_id': pid, 'reason': meta['not_applicable'].get(pid, 'check not built yet in this session (static rules designed in DESIGN.md section 4); not claimed')})
man = {
    'version': 1,
    'setup_cmd': 'true',
    'hooks': {
        'guard': 'PYPRISM_VERIF (unused: static analysis reads the working tree as it is; no hooks or instrumentation exist)',
        'enable': 'nothing to enable; checks parse /repo/pyPRISM/**/*.py on every run',
        'baseline_off_cmd': 'cd /repo && /venv/bin/python -m pytest -ra -q -p no:cacheprovider --timeout=900 --continue-on-collection-errors',
        'source_commits': [],
        'add_only': True,
    },
    'engines': [{'name': 'pv', 'path': '/verif/pv', 'serves_properties': [c['property_id'] for c in checks],
                 'kind_free_text': 'repository-specific static analyser (stdlib ast): resolved program model, abstract interpreter over exact canonical terms, effect/alias tracking, typestate, ordering truth tables; no pyPRISM code is imported or executed'}],
    'checks': checks,
    'not_applicable': na,
    'notes': meta.get('notes', ''),
}
json.dump(man, open(os.path.join(HERE, 'MANIFEST.json'), 'w'), indent=1)
print('wrote MANIFEST.json with %d checks, %d not applicable' % (len(checks), len(na)))
